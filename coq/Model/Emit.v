(* Emit.v — the Rust source libninja emits, as token text.
   Sources: mir_rust/src/{lib,class,enum,record,file,function,import,example,ty}.rs and
   codegen_rust/src/{model,request,client,example,extras,lib}.rs, serde/mod.rs — every quote! template.
   A file is a list of chunks: source text (re-lexed by the same syn + prettyplease pass the implementation
   applies to its own token stream) and string literals given by VALUE (their spelling is normalised on both
   sides before files are compared). *)
From LN Require Export Model.RustTy Model.Shake.
Local Open Scope nat_scope.

Inductive chunk := Txt (s : str) | Lit (v : str).
Definition src := list chunk.

Definition t (s : string) : src := [Txt (lit s)].
Definition ts (s : str) : src := [Txt s].
Definition sl (v : str) : src := [Lit v].
Definition cat (l : list src) : src := concat l.

(* escaping of a string literal value: only what the Rust lexer needs *)
Fixpoint escape (s : str) : str :=
  match s with
  | [] => []
  | c :: r =>
      (if ceqb c """"%char then lit "\"""
       else if ceqb c "\"%char then lit "\\"
       else if N.eqb (code c) 10%N then lit "\n"
       else if N.eqb (code c) 13%N then lit "\r"
       else if N.eqb (code c) 9%N then lit "\t"
       else if N.eqb (code c) 0%N then lit "\0"
       else [c]) ++ escape r
  end.

Definition render_chunk (c : chunk) : str :=
  match c with
  | Txt s => s
  | Lit v => """"%char :: escape v ++ [""""%char]
  end.
Definition render (c : src) : str := join (lit " ") (map render_chunk c).

(* comma-separated *)
Fixpoint sep_by (sep : src) (l : list src) : src :=
  match l with
  | [] => []
  | [x] => x
  | x :: r => x ++ sep ++ sep_by sep r
  end.

(* ---------- configuration ---------- *)
Record config := { c_name : str; c_derives : list str; c_examples : bool }.

(* str::parse::<TokenStream>() succeeds — decided for derive strings without quotes/backslashes:
   brackets must be balanced (proc_macro2's lexer builds the group tree) *)
Fixpoint balanced (s : str) (stack : list ascii) : bool :=
  match s with
  | [] => match stack with [] => true | _ => false end
  | c :: r =>
      if ceqb c "("%char || ceqb c "["%char || ceqb c "{"%char then balanced r (c :: stack)
      else if ceqb c ")"%char then match stack with o :: st => ceqb o "("%char && balanced r st | [] => false end
      else if ceqb c "]"%char then match stack with o :: st => ceqb o "["%char && balanced r st | [] => false end
      else if ceqb c "}"%char then match stack with o :: st => ceqb o "{"%char && balanced r st | [] => false end
      else balanced r stack
  end.
Definition tokenizable (s : str) : bool :=
  balanced s [] && negb (existsb (fun c => ceqb c """"%char || ceqb c "'"%char || ceqb c "\"%char || ceqb c "`"%char) s).

(* mir_rust::derives_to_tokens: `, d` for every derive string that tokenises *)
Definition user_derives (cfg : config) : list str :=
  filter tokenizable (map trim (c_derives cfg)).
Definition derives_code (cfg : config) : src :=
  concat (map (fun d => t "," ++ ts d) (user_derives cfg)).

(* the derive attribute of every generated data type: built-ins, optional Default, then the user's derives *)
Definition derive_attr (builtins : string) (dflt : bool) (cfg : config) : src :=
  t "#[derive(" ++ t builtins ++ (if dflt then t ", Default" else []) ++ derives_code cfg ++ t ")]".

(* ---------- small pieces ---------- *)
Definition doc_attr (d : option str) : src :=
  match d with
  | None => []
  | Some s => t "#[doc =" ++ sl (trim s) ++ t "]"
  end.

Fixpoint rty_code (r : rty) : src :=
  match r with
  | RString => t "String" | RI64 => t "i64" | RF64 => t "f64" | RBool => t "bool" | RUnit => t "()"
  | RVec i => t "Vec <" ++ rty_code i ++ t ">"
  | RHashMap i => t "std::collections::HashMap < String ," ++ rty_code i ++ t ">"
  | RNamed id => ts id
  | RValue => t "serde_json::Value"
  | RNaiveDate => t "chrono::NaiveDate"
  | RDateTimeUtc => t "chrono::DateTime < chrono::Utc >"
  | RDecimal => t "rust_decimal::Decimal"
  | RRefStr => t "& str"
  | RRefSlice i => t "& [" ++ rty_code i ++ t "]"
  | ROption i => t "Option <" ++ rty_code i ++ t ">"
  end.

(* reference forms with a lifetime specifier: `& 'a str`, `& 'a [& 'a str]` *)
Fixpoint rty_code_lt (lt : src) (r : rty) : src :=
  match r with
  | RRefStr => t "&" ++ lt ++ t "str"
  | RRefSlice i => t "&" ++ lt ++ t "[" ++ rty_code_lt lt i ++ t "]"
  | _ => rty_code r
  end.

Definition ty_code (x : ty) : result src := do r <- to_rust_type x; Ok (rty_code r).
Definition ref_ty_code (lt : src) (x : ty) : result src := do r <- to_reference_type x; Ok (rty_code_lt lt r).

(* Ident -> proc_macro2::Ident::new panics on a non-identifier *)
Definition ident (s : str) : result src := if ident_new_ok s then Ok (ts s) else Err EIdentNew.
Definition field_ident (name : str) : result src := do s <- sanitize name; ident s.
Definition struct_ident (name : str) : result src := do s <- sanitize_struct name; ident s.

(* ---------- implements_default: recursion over the table without a visited set ---------- *)
Fixpoint ty_implements_default (fuel : nat) (h : hirspec) (x : ty) : result bool :=
  match fuel with
  | O => Err EDiverge
  | S f =>
    match x with
    | TModel n =>
        match assoc (h_schemas h) n with
        | None => Err EModelNotFound
        | Some (REnum _ _ _) => Ok false
        | Some r =>
            (fix all (l : list hfield) : result bool :=
               match l with
               | [] => Ok true
               | fl :: rest => do b <- ty_implements_default f h (f_ty fl); if b then all rest else Ok false
               end) (record_fields r)
        end
    | _ => Ok true
    end
  end.

Fixpoint all_default (fuel : nat) (h : hirspec) (l : list hfield) : result bool :=
  match l with
  | [] => Ok true
  | fl :: rest => do b <- ty_implements_default fuel h (f_ty fl); if b then all_default fuel h rest else Ok false
  end.

(* ---------- model files: mir_rust/src/class.rs, enum.rs, record.rs ---------- *)
Definition serde_skip (pred : string) : src :=
  t "#[serde(default, skip_serializing_if =" ++ sl (lit pred) ++ t ")]".

(* what serde is told about one struct field: decided here, printed below, given meaning in Sem/Serde.v *)
Inductive skip_if := SkipNone | SkipEmptyVec | SkipNullValue.
Inductive wire_name := WIdent | WRename (n : str) | WFlatten.

Record fdesc := {
  fd_ident : str;                 (* the Rust field identifier *)
  fd_wire : wire_name;            (* under which key the member travels *)
  fd_default_skip : option skip_if;   (* #[serde(default, skip_serializing_if = ..)] *)
  fd_with : option str;           (* #[serde(with = "..")] *)
  fd_option : bool;               (* the field type is Option<T> *)
  fd_ty : rty
}.

Definition forced_option (x : ty) : bool :=
  match x with
  | TInteger INullAsZero | TInteger IString | TDate DInteger => true
  | _ => false
  end.

Definition field_desc (name : str) (f : hfield) : result fdesc :=
  do rid <- sanitize name;
  do r <- to_rust_type (f_ty f);
  Ok {| fd_ident := rid;
        fd_wire := if str_eqb rid name then WIdent else if f_flatten f then WFlatten else WRename name;
        fd_default_skip := if f_optional f then Some SkipNone
                           else if is_iterable (f_ty f) then Some SkipEmptyVec
                           else match f_ty f with TAny => Some SkipNullValue | _ => None end;
        fd_with := match f_ty f with
                   | TInteger IString => Some (lit "crate::serde::option_i64_str")
                   | TInteger INullAsZero => Some (lit "crate::serde::option_i64_null_as_zero")
                   | TDate DInteger => Some (lit "crate::serde::option_chrono_naive_date_as_int")
                   | TCurrency => Some (if f_optional f then lit "rust_decimal::serde::str_option" else lit "rust_decimal::serde::str")
                   | _ => None
                   end;
        fd_option := f_optional f || forced_option (f_ty f);
        fd_ty := r |}.

Definition print_field_attrs (d : fdesc) : src :=
  (match fd_wire d with
   | WIdent => []
   | WFlatten => t "#[serde(flatten)]"
   | WRename n => t "#[serde(rename =" ++ sl n ++ t ")]"
   end) ++
  (match fd_default_skip d with
   | None => []
   | Some SkipNone => serde_skip "Option::is_none"
   | Some SkipEmptyVec => serde_skip "Vec::is_empty"
   | Some SkipNullValue => serde_skip "serde_json::Value::is_null"
   end) ++
  (match fd_with d with None => [] | Some w => t "#[serde(with =" ++ sl w ++ t ")]" end).

Definition class_field (name : str) (f : hfield) : result src :=
  do d <- field_desc name f;
  do id <- ident (fd_ident d);
  Ok (doc_attr (f_doc f) ++ print_field_attrs d ++ t "pub" ++ id ++ t ":" ++
      rty_code (if fd_option d then ROption (fd_ty d) else fd_ty d)).

Definition ref_target (fields : list (str * hfield)) : option (str * hfield) :=
  find (fun kf => f_flatten (snd kf) && negb (f_optional (snd kf))) fields.

Definition make_class (fuel : nat) (h : hirspec) (cfg : config) (name : str) (fields : list (str * hfield))
  (docs : option str) : result src :=
  do dflt <- all_default fuel h (map snd fields);
  do nm <- struct_ident name;
  do fs <- mapM (fun kf => do c <- class_field (fst kf) (snd kf); Ok (c ++ t ",")) fields;
  do deref <- match ref_target fields with
              | None => Ok []
              | Some (tn, tf) =>
                  do target <- field_ident tn;
                  do tty <- ty_code (f_ty tf);
                  Ok (t "impl std::ops::Deref for" ++ nm ++ t "{ type Target =" ++ tty ++
                      t "; fn deref(&self) -> &Self::Target { &self ." ++ target ++ t "} }" ++
                      t "impl std::ops::DerefMut for" ++ nm ++
                      t "{ fn deref_mut(&mut self) -> &mut Self::Target { &mut self ." ++ target ++ t "} }")
              end;
  Ok (doc_attr docs ++
      derive_attr "Debug, Clone, Serialize, Deserialize" dflt cfg ++
      t "pub struct" ++ nm ++ t "{" ++ concat fs ++ t "}" ++
      t "impl std::fmt::Display for" ++ nm ++
      t "{ fn fmt(&self, f: &mut std::fmt::Formatter<'_>) -> Result<(), std::fmt::Error> { write!(f," ++ sl (lit "{}") ++
      t ", serde_json::to_string(self).unwrap()) } }" ++ deref).

Definition make_newtype (fuel : nat) (h : hirspec) (cfg : config) (name : str) (fields : list hfield) : result src :=
  do nm <- struct_ident name;
  do tys <- mapM (fun f => do c <- ty_code (f_ty f); Ok (t "pub" ++ c)) fields;
  do dflt <- all_default fuel h fields;
  Ok (derive_attr "Debug, Clone, Serialize, Deserialize" dflt cfg ++
      t "pub struct" ++ nm ++ t "(" ++ sep_by (t ",") tys ++ t ");").

Definition make_typealias (name : str) (f : hfield) : result src :=
  do nm <- struct_ident name;
  do r <- to_rust_type (f_ty f);
  Ok (t "pub type" ++ nm ++ t "=" ++ rty_code (if f_optional f then ROption r else r) ++ t ";").

Definition make_enum (cfg : config) (name : str) (variants : list (str * option str)) (doc : option str) : result src :=
  do names <- safe_variant_names name variants;
  do vs <- mapM (fun nv =>
             let '(n, value) := nv in
             do idn <- sanitize_struct n;
             do idc <- ident idn;
             Ok ((if str_eqb idn value then [] else t "#[serde(rename =" ++ sl value ++ t ")]") ++ idc)) names;
  do nm <- struct_ident name;
  Ok (doc_attr doc ++ derive_attr "Debug, Serialize, Deserialize, Clone" false cfg ++
      t "pub enum" ++ nm ++ t "{" ++ sep_by (t ",") vs ++ t "}").

(* mir_rust/src/enum.rs make_enum_display: to_string() of a variant is its wire value *)
Definition enum_display (name : str) (variants : list (str * option str)) : result src :=
  do names <- safe_variant_names name variants;
  do arms <- mapM (fun nv =>
               let '(n, value) := nv in
               do idc <- struct_ident n;
               Ok (t "Self ::" ++ idc ++ t "=>" ++ sl value)) names;
  do nm <- struct_ident name;
  Ok (t "impl std::fmt::Display for" ++ nm ++
      t "{ fn fmt(&self, f: &mut std::fmt::Formatter<'_>) -> Result<(), std::fmt::Error> { let value: &str = match *self {" ++
      sep_by (t ",") arms ++ t "}; write!(f," ++ sl (lit "{}") ++ t ", value) } }").

Definition make_item (fuel : nat) (h : hirspec) (cfg : config) (r : record) : result src :=
  match r with
  | RStruct n _ fs d => make_class fuel h cfg n fs d
  | RNewType n fs _ => make_newtype fuel h cfg n fs
  | REnum n vs d => make_enum cfg n vs d
  | RAlias n f => make_typealias n f
  end.

(* sorted, de-duplicated (BTreeSet<String>) *)
Definition btset (l : list str) : list str := map fst (bt_of_list (map (fun x => (x, tt)) l)).

(* codegen_rust/src/model.rs: check_imports + make_single_module *)
Definition model_file (fuel : nat) (h : hirspec) (cfg : config) (r : record) : result src :=
  let serde_import := match r with RAlias _ _ => [] | _ => t "use serde::{Serialize, Deserialize};" end in
  let mentioned := filter (fun n => negb (str_eqb n (record_name r)))
                          (flat_map (fun f => match inner_model (f_ty f) with Some n => [n] | None => [] end) (record_fields r)) in
  do names <- mapM sanitize_struct mentioned;
  do super_import <- match btset names with
                     | [] => Ok []
                     | l => do ids <- mapM ident l; Ok (t "use super::{" ++ sep_by (t ",") ids ++ t "};")
                     end;
  do item <- make_item fuel h cfg r;
  do display <- match r with REnum n vs _ => enum_display n vs | _ => Ok [] end;
  Ok (serde_import ++ super_import ++ item ++ display).

(* make_model_rs *)
Definition model_mod_file (h : hirspec) : result src :=
  do fnames <- mapM (fun kr => sanitize (fst kr)) (h_schemas h);
  do ids <- mapM ident fnames;
  Ok (concat (map (fun i => t "pub use" ++ i ++ t "::{*};") ids) ++ concat (map (fun i => t "mod" ++ i ++ t ";") ids)).

(* ---------- request modules: codegen_rust/src/request.rs, client.rs (build_api_client_method) ---------- *)
Definition required_params (o : hop) : list hparam := filter (fun p => negb (p_optional p)) (o_params o).
Definition optional_params (o : hop) : list hparam := filter (fun p => p_optional p) (o_params o).

(* add_model_import: one `use crate::model::{..}` accumulating type names in first-seen order, without repeats *)
Definition model_imports (ps : list hparam) : result (list str) :=
  fold_left (fun acc p =>
    do l <- acc;
    match inner_model (p_ty p) with
    | None => Ok l
    | Some m => do s <- sanitize_struct m; Ok (if mem_str s l then l else l ++ [s])
    end) ps (Ok []).

(* make_struct_fields *)
Definition struct_field (use_refs : bool) (p : hparam) : result src :=
  do tyc <- (if use_refs then ref_ty_code (t "'a") (p_ty p) else ty_code (p_ty p));
  do id <- field_ident (p_name p);
  Ok (t "pub" ++ id ++ t ":" ++ (if p_optional p then t "Option <" ++ tyc ++ t ">" else tyc)).

Definition strip_spaces (s : str) : str := filter (fun c => negb (ceqb c " "%char)) s.

(* the request struct's doc text: `to_string()` of a token stream, spaces removed *)
Definition ret_type_text (x : ty) : result str := do c <- ty_code x; Ok (strip_spaces (render c)).

Definition request_struct (cfg : config) (o : hop) : result src :=
  do fields <- mapM (fun p => do c <- struct_field false p; Ok (c ++ t ",")) (o_params o);
  do fn_name <- sanitize (o_name o);
  do resp <- ret_type_text (o_ret o);
  let client := strip_spaces (client_name (c_name cfg)) in
  let doc := lit "You should use this struct via [`" ++ client ++ lit "::" ++ fn_name ++ lit "`]." ++ NLNL ++
             lit "On request success, this will return a [`" ++ resp ++ lit "`]." in
  do nm <- struct_ident (request_struct_name (o_name o));
  Ok (doc_attr (Some doc) ++ derive_attr "Debug, Clone, Serialize, Deserialize" false cfg ++
      t "pub struct" ++ nm ++ t "{" ++ concat fields ++ t "}").

Definition required_struct (o : hop) : result src :=
  if crowded_args o then
    do nm <- struct_ident (required_struct_name (o_name o));
    do fields <- mapM (fun p => do c <- struct_field true p; Ok (c ++ t ",")) (required_params o);
    let lts := if existsb (fun p => negb (p_optional p) && is_reference_type (p_ty p)) (o_params o) then t "< 'a >" else [] in
    Ok (t "pub struct" ++ nm ++ lts ++ t "{" ++ concat fields ++ t "}")
  else Ok [].

(* build_request_struct_builder_methods *)
Definition builder_method (p : hparam) : result src :=
  do name <- sanitize (p_name p);
  do id <- ident name;
  do argty <- (match inner_iterable (p_ty p) with
               | Some TString => Ok (t "impl IntoIterator<Item = impl AsRef<str>>")
               | _ => ref_ty_code [] (p_ty p)
               end);
  let body := match inner_iterable (p_ty p) with
              | Some TString => t "self.params ." ++ id ++ t "= Some(" ++ id ++ t ".into_iter().map(|s| s.as_ref().to_owned()).collect()); self"
              | _ => if is_reference_type (p_ty p)
                     then t "self.params ." ++ id ++ t "= Some(" ++ id ++ t ".to_owned()); self"
                     else t "self.params ." ++ id ++ t "= Some(" ++ id ++ t "); self"
              end in
  Ok (doc_attr (Some (lit "Set the value of the " ++ name ++ lit " field.")) ++
      t "pub fn" ++ id ++ t "( mut self ," ++ id ++ t ":" ++ argty ++ t ") -> Self {" ++ body ++ t "}").

(* assign_inputs_to_request, through a small description of what each input does to the request *)
Record assign := {
  a_loc : hloc;            (* LQuery / LHeader / LCookie / LBody *)
  a_key : str;             (* the key literal, `name` or `name[]` *)
  a_name : str;            (* OpenAPI name of the input (the request-struct field is its sanitised form) *)
  a_optional : bool;       (* wrapped in `if let Some(ref unwrapped) = ..` *)
  a_each : bool            (* wrapped in `for item in ..` *)
}.

Definition key_of (p : hparam) : str :=
  match p_loc p with
  | LQuery => if is_iterable (p_ty p) then p_name p ++ lit "[]" else p_name p
  | _ => p_name p
  end.

Definition assign_of (p : hparam) : assign :=
  {| a_loc := p_loc p; a_key := key_of p; a_name := p_name p; a_optional := p_optional p;
     a_each := is_iterable (p_ty p) && negb (match p_loc p with LBody => true | _ => false end) |}.

Definition print_assign (a : assign) : result src :=
  do fld <- field_ident (a_name a);
  let value := if a_each a then t "item"
               else if a_optional a then t "unwrapped"
               else t "self.params ." ++ fld in
  let key := sl (a_key a) in
  do a0 <- match a_loc a with
           | LPath => Err EOther
           | LBody => Ok (t "r = r.json(serde_json::json!({" ++ key ++ t ":" ++ value ++ t "}));")
           | LQuery => Ok (t "r = r.query(" ++ key ++ t ", &" ++ value ++ t ".to_string());")
           | LHeader => Ok (t "r = r.header(" ++ key ++ t ", &" ++ value ++ t ".to_string());")
           | LCookie => Ok (t "r = r.cookie(" ++ key ++ t ", &" ++ value ++ t ".to_string());")
           end;
  let a1 := if a_each a
            then t "for item in" ++ (if a_optional a then t "unwrapped" else t "self.params ." ++ fld) ++ t "{" ++ a0 ++ t "}"
            else a0 in
  Ok (if a_optional a
      then t "if let Some(ref unwrapped) = self.params ." ++ fld ++ t "{" ++ a1 ++ t "}"
      else a1).

Definition assign_input (p : hparam) : result src := print_assign (assign_of p).

Definition is_path (p : hparam) : bool := match p_loc p with LPath => true | _ => false end.
Definition is_query (p : hparam) : bool := match p_loc p with LQuery => true | _ => false end.

(* what the request builder is told to do: the all-query shortcut, or one assignment per non-path input *)
Inductive plan := PSetQuery | PAssigns (l : list assign).

Definition request_plan (ps : list hparam) : plan :=
  let non_path := filter (fun p => negb (is_path p)) ps in
  if forallb is_query non_path then PSetQuery else PAssigns (map assign_of non_path).

Definition print_plan (pl : plan) : result src :=
  match pl with
  | PSetQuery => Ok (t "r = r.set_query(self.params);")
  | PAssigns l => do c <- mapM print_assign l; Ok (concat c)
  end.

Definition assign_inputs (ps : list hparam) : result src := print_plan (request_plan ps).

(* make_url: Regex \{([^{}]+)\} -> {snake(capture)}: a placeholder is whatever stands between two braces *)
Definition wordc (c : ascii) : bool := negb (ceqb c "{"%char) && negb (ceqb c "}"%char).

Fixpoint take_word (s : str) : str * str :=
  match s with
  | c :: r => if wordc c then let '(w, rest) := take_word r in (c :: w, rest) else ([], s)
  | [] => ([], [])
  end.

Fixpoint fix_placeholders (fuel : nat) (s : str) : result str :=
  match fuel with
  | O => Ok s
  | S f =>
    match s with
    | [] => Ok []
    | c :: r =>
        if ceqb c "{"%char then
          let '(w, rest) := take_word r in
          match w, rest with
          | _ :: _, c2 :: rest' =>
              if ceqb c2 "}"%char
              then do id <- sanitize w; do tl <- fix_placeholders f rest'; Ok ("{"%char :: id ++ "}"%char :: tl)
              else do tl <- fix_placeholders f r; Ok (c :: tl)
          | _, _ => do tl <- fix_placeholders f r; Ok (c :: tl)
          end
        else do tl <- fix_placeholders f r; Ok (c :: tl)
    end
  end.

Definition make_url (o : hop) : result src :=
  let path_params := filter is_path (o_params o) in
  match path_params with
  | [] => Ok (sl (o_path o))
  | _ =>
      do args <- mapM (fun p => do id <- field_ident (p_name p); Ok (id ++ t "= self.params ." ++ id)) path_params;
      do tpl <- fix_placeholders (length (o_path o)) (o_path o);
      Ok (t "& format!(" ++ sl tpl ++ t "," ++ sep_by (t ",") args ++ t ")")
  end.

(* build_api_client_method *)
Definition client_method (o : hop) : result src :=
  let use_struct := crowded_args o in
  do fn_args <- (if use_struct
                 then do s <- struct_ident (required_struct_name (o_name o)); Ok [t "args :" ++ s]
                 else mapM (fun p => do k <- field_ident (p_name p); do a <- ref_ty_code [] (p_ty p); Ok (k ++ t ":" ++ a))
                           (required_params o));
  do values <- mapM (fun p =>
                 do name <- field_ident (p_name p);
                 Ok ((if p_optional p then name ++ t ": None"
                      else if is_reference_type (p_ty p) then
                        let v := if is_iterable (p_ty p) then name ++ t ".iter().map(|&x| x.to_owned()).collect()"
                                 else name ++ t ".to_owned()" in
                        name ++ t ":" ++ (if use_struct then t "args ." ++ v else v)
                      else if use_struct then name ++ t ": args ." ++ name
                      else name) ++ t ",")) (o_params o);
  do rs <- struct_ident (request_struct_name (o_name o));
  do name <- field_ident (o_name o);
  Ok (doc_attr (o_doc o) ++ t "pub fn" ++ name ++ t "( & self ," ++ sep_by (t ",") fn_args ++
      t ") -> FluentRequest<'_," ++ rs ++ t "> { FluentRequest { client: self, params:" ++ rs ++ t "{" ++ concat values ++ t "} } }").

Definition has_security (h : hirspec) : bool := match h_security h with [] => false | _ => true end.

(* request.rs: qualified_result_type — generated models are qualified with crate::model wherever they occur *)
Fixpoint qualified_result_type (x : ty) : result src :=
  match x with
  | TModel _ => do c <- ty_code x; Ok (t "crate::model::" ++ c)
  | TArray i => do c <- qualified_result_type i; Ok (t "Vec <" ++ c ++ t ">")
  | THashMap i => do c <- qualified_result_type i; Ok (t "std::collections::HashMap < String ," ++ c ++ t ">")
  | _ => ty_code x
  end.

(* the IntoFuture impl: the one place where the HTTP request is built and sent *)
Definition into_future_impl (auth : bool) (sname output url method assigns : src) : src :=
  t "impl<'a> ::std::future::IntoFuture for FluentRequest<'a," ++ sname ++ t "> {" ++
  t "type Output = httpclient::InMemoryResult<" ++ output ++ t ">;" ++
  t "type IntoFuture = ::futures::future::BoxFuture<'a, Self::Output>;" ++
  t "fn into_future(self) -> Self::IntoFuture { Box::pin(async move { let url =" ++ url ++ t ";" ++
  t "let mut r = self.client.client ." ++ method ++ t "(url);" ++ assigns ++
  (if auth then t "r = self.client.authenticate(r);" else []) ++
  t "let res = r.await?; res.json().map_err(Into::into) }) } }".

Definition request_file (h : hirspec) (cfg : config) (o : hop) : result src :=
  let client := client_name (c_name cfg) in
  do imports <- model_imports (o_params o);
  do imports2 <- (if crowded_args o then
                    fold_left (fun acc p => do l <- acc;
                       match inner_model (p_ty p) with
                       | None => Ok l
                       | Some m => do s <- sanitize_struct m; Ok (if mem_str s l then l else l ++ [s])
                       end) (required_params o) (Ok imports)
                  else Ok imports);
  do rstruct <- request_struct cfg o;
  do reqd <- required_struct o;
  do sname <- struct_ident (request_struct_name (o_name o));
  do method <- ident (o_method o);
  do url <- make_url o;
  do builders <- mapM builder_method (optional_params o);
  do assigns <- assign_inputs (o_params o);
  do output <- qualified_result_type (o_ret o);
  do cm <- client_method o;
  do cid <- ident client;
  do model_import <- match imports2 with
                     | [] => Ok []
                     | l => do ids <- mapM ident l; Ok (t "use crate::model::{" ++ sep_by (t ",") ids ++ t "};")
                     end;
  Ok (t "use crate::{FluentRequest}; use serde::{Serialize, Deserialize}; use httpclient::{InMemoryResponseExt};" ++ model_import ++
      rstruct ++ reqd ++
      t "impl FluentRequest<'_," ++ sname ++ t "> {" ++ concat builders ++ t "}" ++
      into_future_impl (has_security h) sname output url method assigns ++
      t "impl crate ::" ++ cid ++ t "{" ++ cm ++ t "}").

Definition request_mod_file (h : hirspec) : result src :=
  do l <- mapM (fun o =>
            do m <- ident (op_file_name (o_name o));
            do s <- struct_ident (request_struct_name (o_name o));
            Ok (t "pub mod" ++ m ++ t "; pub use" ++ m ++ t "::" ++ s ++ t ";")) (h_ops h);
  Ok (concat l).

(* ---------- lib.rs: codegen_rust/src/client.rs ---------- *)
Record extras := { x_null_as_zero : bool; x_option_i64_str : bool; x_int_date : bool; x_basic_auth : bool; x_oauth2 : bool }.

Definition all_fields (h : hirspec) : list hfield := flat_map (fun kr => record_fields (snd kr)) (h_schemas h).

Definition calculate_extras (h : hirspec) : extras :=
  {| x_null_as_zero := existsb (fun f => match f_ty f with TInteger INullAsZero => true | _ => false end) (all_fields h);
     x_option_i64_str := existsb (fun f => match f_ty f with TInteger IString => true | _ => false end) (all_fields h);
     x_int_date := existsb (fun f => match f_ty f with TDate DInteger => true | _ => false end) (all_fields h);
     x_basic_auth := existsb (fun s => match s with AuthToken _ _ => true | _ => false end) (h_security h);
     x_oauth2 := existsb (fun s => match s with AuthOAuth2 _ _ _ _ => true | _ => false end) (h_security h) |}.

Definition needs_serde (x : extras) : bool := x_null_as_zero x || x_int_date x || x_option_i64_str x.

Definition server_url (h : hirspec) (cfg : config) : src :=
  let env (v : string) :=
    let var := qualified_env_var (c_name cfg) (lit v) in
    t "std::env::var(" ++ sl var ++ t ").expect(" ++ sl (lit "Missing environment variable " ++ var) ++ t ").as_str()" in
  match server_strategy_of h with
  | SSSingle url => sl url
  | SSEnv => env "env"%string
  | SSBaseUrl => env "base_url"%string
  end.

Definition auth_ident (cfg : config) : result src := struct_ident (authenticator_name (c_name cfg)).

Definition client_struct (h : hirspec) (cfg : config) : result src :=
  do cid <- ident (client_name (c_name cfg));
  do aid <- auth_ident cfg;
  let sec := has_security h in
  let from_env := if sec
    then t "pub fn from_env() -> Self { Self { client: shared_http_client(), authentication:" ++ aid ++ t "::from_env(), } }"
    else t "pub fn from_env() -> Self { Self { client: shared_http_client() } }" in
  let second := if sec
    then t "pub fn with_auth(authentication:" ++ aid ++ t ") -> Self { Self { client: shared_http_client(), authentication } }"
    else t "pub fn new() -> Self { Self { client: shared_http_client() } }" in
  let third := if sec
    then t "pub fn new(client: Client, authentication:" ++ aid ++ t ") -> Self { Self { client: Cow::Owned(client), authentication, } }"
    else [] in
  Ok (t "pub struct" ++ cid ++ t "{ client: Cow<'static, Client>," ++
      (if sec then t "authentication:" ++ aid ++ t "," else []) ++ t "}" ++
      t "impl" ++ cid ++ t "{" ++ from_env ++ second ++ third ++ t "}").

Definition auth_set_value (fld : src) (l : authloc) : src :=
  match l with
  | AHeader k => t "r = r.header(" ++ sl k ++ t "," ++ fld ++ t ");"
  | ABasic => t "r = r.basic_auth(" ++ fld ++ t ");"
  | ABearer => t "r = r.bearer_auth(" ++ fld ++ t ");"
  | AToken => t "r = r.token_auth(" ++ fld ++ t ");"
  | AQuery k => t "r = r.query(" ++ sl k ++ t "," ++ fld ++ t ");"
  | ACookie k => t "r = r.cookie(" ++ sl k ++ t "," ++ fld ++ t ");"
  end.

Definition authenticate_variant (aid : src) (s : authstrat) : result src :=
  match s with
  | AuthToken name fields =>
      do v <- struct_ident name;
      do fs <- mapM (fun fl => field_ident (fst fl)) fields;
      do sets <- mapM (fun fl => do f <- field_ident (fst fl); Ok (auth_set_value f (snd fl))) fields;
      Ok (aid ++ t "::" ++ v ++ t "{" ++ concat (map (fun f => f ++ t ",") fs) ++ t "} => {" ++ concat sets ++ t "}")
  | AuthOAuth2 _ _ _ _ => Ok (aid ++ t ":: OAuth2 { middleware } => { r.middlewares.insert(0, middleware.clone()); }")
  | AuthNone => Ok (aid ++ t ":: NoAuth => {}")
  end.

Definition impl_client (h : hirspec) (cfg : config) : result src :=
  do cid <- ident (client_name (c_name cfg));
  do aid <- auth_ident cfg;
  do arms <- mapM (authenticate_variant aid) (h_security h);
  Ok (t "impl" ++ cid ++ t "{" ++
      (if has_security h
       then t "pub(crate) fn authenticate<'a>(&self, mut r: httpclient::RequestBuilder<'a>) -> httpclient::RequestBuilder<'a> { match &self.authentication {"
            ++ concat (map (fun a => a ++ t ",") arms) ++ t "} r }"
       else []) ++ t "}").

Definition auth_enum (h : hirspec) (cfg : config) : result src :=
  do aid <- auth_ident cfg;
  do vs <- mapM (fun s =>
             match s with
             | AuthToken name fields =>
                 do v <- struct_ident name;
                 do fs <- mapM (fun fl => do f <- field_ident (fst fl); Ok (f ++ t ": String")) fields;
                 Ok (v ++ t "{" ++ sep_by (t ",") fs ++ t "}")
             | AuthOAuth2 _ _ _ _ => Ok (t "OAuth2 { middleware: std::sync::Arc<httpclient_oauth2::OAuth2> }")
             | AuthNone => Ok (t "NoAuth")
             end) (h_security h);
  Ok (t "pub enum" ++ aid ++ t "{" ++ sep_by (t ",") vs ++ t "}").

(* one field of the from_env constructor: the credential is read from <SERVICE>_<NAME> *)
Definition from_env_field (cfg : config) (fl : str * authloc) : result src :=
  let '(fname, loc) := fl in
  do fid <- field_ident fname;
  let var := qualified_env_var (c_name cfg) fname in
  let expect := lit "Environment variable " ++ var ++ lit " is not set." in
  Ok (match loc with
      | ABasic => fid ++ t ": { let value = std::env::var(" ++ sl var ++ t ").expect(" ++ sl expect ++
                  t "); STANDARD_NO_PAD.encode(value) }"
      | _ => fid ++ t ": std::env::var(" ++ sl var ++ t ").expect(" ++ sl expect ++ t ")"
      end).

Definition auth_from_env (h : hirspec) (cfg : config) : result src :=
  match h_security h with
  | [] => Ok []
  | AuthToken name fields :: _ =>
      do fs <- mapM (from_env_field cfg) fields;
      do v <- struct_ident name;
      Ok (t "pub fn from_env() -> Self { Self ::" ++ v ++ t "{" ++ sep_by (t ",") fs ++ t "} }")
  | AuthNone :: _ => Ok (t "pub fn from_env() -> Self { Self::NoAuth }")
  | AuthOAuth2 _ _ _ _ :: _ =>
      Ok (t "pub fn from_env() -> Self { let access = std::env::var(" ++ sl (qualified_env_var (c_name cfg) (lit "access_token")) ++
          t ").unwrap(); let refresh = std::env::var(" ++ sl (qualified_env_var (c_name cfg) (lit "refresh_token")) ++
          t ").unwrap(); let mw = shared_oauth2_flow().bearer_middleware(access, refresh); Self::OAuth2 { middleware: std::sync::Arc::new(mw), } }")
  end.

Definition impl_auth (h : hirspec) (cfg : config) : result src :=
  do aid <- auth_ident cfg;
  do fe <- auth_from_env h cfg;
  Ok (t "impl" ++ aid ++ t "{" ++ fe ++
      (if x_oauth2 (calculate_extras h)
       then t "pub fn oauth2(access: String, refresh: String) -> Self { let mw = shared_oauth2_flow().bearer_middleware(access, refresh); Self::OAuth2 { middleware: std::sync::Arc::new(mw) } }"
       else []) ++ t "}").

Definition doc_line (s : string) : src := t "#[doc =" ++ sl (lit s) ++ t "]".

Definition static_shared_http_client : src :=
  t "static SHARED_HTTPCLIENT: OnceLock<Client> = OnceLock::new();" ++
  doc_line " Use this method if you want to add custom middleware to the httpclient." ++
  doc_line " It must be called before any requests are made, otherwise it will have no effect." ++
  doc_line " Example usage:" ++ doc_line "" ++ doc_line " ```" ++
  doc_line " init_http_client(default_http_client()" ++ doc_line "     .with_middleware(..)" ++ doc_line " );" ++ doc_line " ```" ++
  t "pub fn init_http_client(init: Client) { let _ = SHARED_HTTPCLIENT.set(init); }" ++
  t "fn shared_http_client() -> Cow<'static, Client> { Cow::Borrowed(SHARED_HTTPCLIENT.get_or_init(default_http_client)) }".

Definition shared_oauth2_flow (cfg : config) (a : authstrat) : src :=
  match a with
  | AuthOAuth2 auth exch refresh _ =>
      let v (n : string) := qualified_env_var (c_name cfg) (lit n) in
      let ev (n : string) := t "std::env::var(" ++ sl (v n) ++ t ").expect(" ++ sl (v n ++ lit " must be set") ++ t ")" in
      t "static SHARED_OAUTH2FLOW: OnceLock<httpclient_oauth2::OAuth2Flow> = OnceLock::new();" ++
      t "pub fn init_oauth2_flow(init: httpclient_oauth2::OAuth2Flow) { let _ = SHARED_OAUTH2FLOW.set(init); }" ++
      t "pub fn shared_oauth2_flow() -> &'static httpclient_oauth2::OAuth2Flow { SHARED_OAUTH2FLOW.get_or_init(|| httpclient_oauth2::OAuth2Flow {" ++
      t "client_id:" ++ ev "client id"%string ++ t ", client_secret:" ++ ev "client secret"%string ++
      t ", init_endpoint:" ++ sl auth ++ t ".to_string(), exchange_endpoint:" ++ sl exch ++
      t ".to_string(), refresh_endpoint:" ++ sl refresh ++ t ".to_string(), redirect_uri:" ++ ev "redirect uri"%string ++ t ", }) }"
  | _ => []
  end.

Definition lib_file (h : hirspec) (cfg : config) (with_default_client : bool) : result src :=
  let x := calculate_extras h in
  do cstruct <- client_struct h cfg;
  do cimpl <- impl_client h cfg;
  do cid <- ident (client_name (c_name cfg));
  do sec <- (if has_security h then do e <- auth_enum h cfg; do i <- impl_auth h cfg; Ok (e ++ i) else Ok []);
  let oauth := match find (fun s => match s with AuthOAuth2 _ _ _ _ => true | _ => false end) (h_security h) with
               | Some a => shared_oauth2_flow cfg a | None => [] end in
  Ok (t "use std::sync::{OnceLock}; use std::borrow::{Cow}; use httpclient::{Client}; pub mod request; pub mod model;" ++
      (if x_basic_auth x then t "use base64::{Engine, engine::general_purpose::STANDARD_NO_PAD};" else []) ++
      (if needs_serde x then t "mod serde;" else []) ++
      (if with_default_client then t "pub fn default_http_client() -> Client { Client::new().base_url(" ++ server_url h cfg ++ t ") }" else []) ++
      static_shared_http_client ++ oauth ++
      t "#[derive(Clone)] pub struct FluentRequest<'a, T> { pub(crate) client: &'a" ++ cid ++ t ", pub params: T, }" ++
      cstruct ++ cimpl ++ sec).

(* ---------- serde.rs: the adapter templates are the files of the repository, passed in as text ---------- *)
Record templates := { tp_null_as_zero : str; tp_date_as_int : str; tp_int_as_str : str }.

Definition serde_file (h : hirspec) (tp : templates) : option src :=
  let x := calculate_extras h in
  if needs_serde x then
    Some (t "pub use ::serde::*;" ++
          (if x_null_as_zero x then ts (tp_null_as_zero tp) else []) ++
          (if x_int_date x then ts (tp_date_as_int tp) else []) ++
          (if x_option_i64_str x then ts (tp_int_as_str tp) else []))
  else None.

(* ---------- examples: mir_rust/src/example.rs, codegen_rust/src/example.rs ---------- *)
Fixpoint example_value (fuel : nat) (h : hirspec) (x : ty) (name : str) (use_ref : bool) : result src :=
  match fuel with
  | O => Err EDiverge
  | S f =>
    match x with
    | TString =>
        let s := lit "your " ++ lower_case name in
        Ok (if use_ref then sl s else sl s ++ t ".to_owned()")
    | TInteger _ => Ok (t "1")
    | TFloat => Ok (t "1.0")
    | TBoolean => Ok (t "true")
    | TArray inner =>
        let ur := if negb (is_reference_type inner) then false else use_ref in
        do v <- example_value f h inner name ur;
        Ok (if ur then t "& [" ++ v ++ t "]" else t "vec![" ++ v ++ t "]")
    | TModel m =>
        match assoc (h_schemas h) m with
        | None => Err EModelNotFound
        | Some r =>
            let force_ref := ends_with (lit "Required") m in
            match r with
            | RStruct _ _ fields _ =>
                do fs <- mapM (fun kf =>
                           let '(fname, fl) := kf in
                           let optional := f_optional fl || forced_option (f_ty fl) in
                           let not_ref := negb force_ref || optional in
                           do v <- example_value f h (f_ty fl) fname (negb not_ref);
                           do id <- field_ident fname;
                           Ok (id ++ t ":" ++ (if optional then t "Some(" ++ v ++ t ")" else v))) fields;
                do mid <- struct_ident m;
                Ok (mid ++ t "{" ++ sep_by (t ",") fs ++ t "}")
            | RNewType nname fields _ =>
                do fs <- mapM (fun fl => example_value f h (f_ty fl) nname false) fields;
                do nid <- struct_ident nname;
                Ok (nid ++ t "(" ++ sep_by (t ",") fs ++ t ")")
            | REnum ename variants _ =>
                do names <- safe_variant_names ename variants;
                match names with
                | [] => Err EOther
                | (n, _) :: _ =>
                    do v <- struct_ident n;
                    do mid <- struct_ident m;
                    Ok (mid ++ t "::" ++ v)
                end
            | RAlias aname fl =>
                let not_ref := negb force_ref || negb (f_optional fl) in
                do v <- example_value f h (f_ty fl) aname not_ref;
                Ok (if f_optional fl then t "Some(" ++ v ++ t ")" else v)
            end
        end
    | TUnit => Ok (t "()")
    | TAny => Ok (t "serde_json::json!({})")
    | TDate _ => Ok (t "chrono::Utc::now().date_naive()")
    | TDateTime => Ok (t "chrono::Utc::now()")
    | TCurrency => Ok (t "rust_decimal_macros::dec!(100.01)")
    | THashMap _ => Ok (t "std::collections::HashMap::new()")
    end
  end.

(* an import path is parsed by syn::parse_str::<Path>: every segment must be a non-keyword identifier *)
Definition path_segment_ok (s : str) : bool :=
  ident_new_ok s && negb (is_restricted s && negb (mem_str s [lit "crate"; lit "self"; lit "super"])).

Definition example_file (fuel : nat) (h : hirspec) (cfg : config) (o : hop) : result src :=
  let req := required_params o in
  do decls <- mapM (fun p =>
                do id <- field_ident (p_name p);
                do v <- example_value fuel h (p_ty p) (p_name p) true;
                Ok (t "let" ++ id ++ t "=" ++ v ++ t ";")) req;
  let use_required := crowded_args o in
  do fn_args <- (if use_required then
                   do sn <- struct_ident (required_struct_name (o_name o));
                   do ids <- mapM (fun p => field_ident (p_name p)) req;
                   Ok (sn ++ t "{" ++ sep_by (t ",") ids ++ t "}")
                 else do ids <- mapM (fun p => field_ident (p_name p)) req; Ok (sep_by (t ",") ids));
  do optionals <- mapM (fun p =>
                    do id <- field_ident (p_name p);
                    do v <- example_value fuel h (p_ty p) (p_name p) true;
                    Ok (t "." ++ id ++ t "(" ++ v ++ t ")")) (optional_params o);
  let pkg := package_name (c_name cfg) in
  do _ <- (if path_segment_ok pkg then Ok tt else Err EParse);
  do cid <- ident (client_name (c_name cfg));
  do imp3 <- (if use_required then
                let fname := op_file_name (o_name o) in
                do sname <- sanitize_struct (required_struct_name (o_name o));
                if path_segment_ok fname && path_segment_ok sname
                then Ok (t "use" ++ ts pkg ++ t ":: request ::" ++ ts fname ++ t "::" ++ ts sname ++ t ";")
                else Err EParse
              else Ok []);
  do opid <- field_ident (o_name o);
  Ok (t "#![allow(unused_imports)] use" ++ ts pkg ++ t ":: model :: * ; use" ++ ts pkg ++ t ":: {" ++ cid ++ t "};" ++ imp3 ++
      t "#[tokio::main] async fn main() { let client =" ++ cid ++ t "::from_env();" ++ concat decls ++
      t "let response = client ." ++ opid ++ t "(" ++ fn_args ++ t ")" ++ concat optionals ++
      t ".await.unwrap(); println!(" ++ sl (lit "{:#?}") ++ t ", response); }").
