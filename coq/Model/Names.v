(* Names.v — libninja's name mangling.
   Sources: mir_rust/src/lib.rs (rewrite_names, sanitize, sanitize_struct, is_restricted, assert_valid_ident),
            mir/src/ident.rs (Ident -> proc_macro2::Ident::new), hir/src/operation.rs (file_name &c),
            hir/src/config.rs, hir/src/lib.rs (qualified_env_var). *)
From LN Require Export Model.Case.

(* mir_rust/src/lib.rs: rewrite_names *)
Definition rewrite_names (s : str) : str :=
  if str_eqb s (lit "+1") then lit "PlusOne"
  else if str_eqb s (lit "-1") then lit "MinusOne"
  else
    let s := replace_char "/"%char (lit "_") s in
    let s := remove_chars ["@"%char; "'"%char; "+"%char] s in
    let s := replace_char ":"%char (lit " ") s in
    replace_char "."%char (lit "_") s.

(* Regex "[a-z]_[0-9]" replace_all with the match minus its middle character;
   leftmost, non-overlapping, fixed width 3 *)
Fixpoint fix_digit_sep (s : str) : str :=
  match s with
  | [] => []
  | a :: rest =>
    match rest with
    | u :: d :: t =>
        if is_lower a && ceqb u "_"%char && is_digit d
        then a :: d :: fix_digit_sep t
        else a :: fix_digit_sep rest
    | _ => a :: fix_digit_sep rest
    end
  end.

(* mir_rust/src/lib.rs: is_restricted *)
Definition restricted_words : list str := map lit [
  "as"; "break"; "const"; "continue"; "crate"; "else"; "enum"; "extern"; "false"; "fn"; "for"; "if"; "impl";
  "in"; "let"; "loop"; "match"; "mod"; "move"; "mut"; "pub"; "ref"; "return"; "self"; "static"; "struct";
  "super"; "trait"; "true"; "type"; "unsafe"; "use"; "where"; "while"; "async"; "await"; "dyn"; "abstract";
  "become"; "box"; "do"; "final"; "macro"; "override"; "priv"; "typeof"; "unsized"; "virtual"; "yield"; "try"
  ]%string.
Definition is_restricted (s : str) : bool := mem_str s restricted_words.

(* assert_valid_ident; char::is_numeric coincides with ASCII digit on ASCII input *)
Definition assert_valid_ident (s : str) : result unit :=
  if contains_char "("%char s then Err EParen
  else if match s with c :: _ => is_digit c | [] => false end then Err ENumeric
  else if contains_char "."%char s then Err EDot
  else if negb (nonempty s) then Err EEmptyIdent
  else Ok tt.

Definition first_is_digit (s : str) : result bool :=
  match s with [] => Err EEmptyUnwrap | c :: _ => Ok (is_digit c) end.

Definition sanitize (orig : str) : result str :=
  let s := rewrite_names orig in
  let s := snake s in
  let s := fix_digit_sep s in
  let s := if is_restricted s then s ++ lit "_" else s in
  do d <- first_is_digit s;
  let s := if d then "_"%char :: s else s in
  do _ <- assert_valid_ident s;
  Ok s.

Definition sanitize_struct (orig : str) : result str :=
  let s := rewrite_names orig in
  let s := pascal s in
  let s := if is_restricted s then s ++ lit "Struct" else s in
  let s := if str_eqb s (lit "Self") then s ++ lit "_" else s in
  do d <- first_is_digit s;
  let s := if d then "_"%char :: s else s in
  do _ <- assert_valid_ident s;
  Ok s.

Definition sanitize_filename := sanitize.

(* proc_macro2 (fallback) Ident::new acceptance on ASCII: [A-Za-z_][A-Za-z0-9_]*, not all digits, non-empty.
   Keywords ARE accepted here; they fail later in syn::parse2 (format_code). *)
Definition ident_char (c : ascii) : bool := is_alnum c || ceqb c "_"%char.
Definition ident_new_ok (s : str) : bool :=
  match s with
  | [] => false
  | c :: t => (is_alpha c || ceqb c "_"%char) && forallb ident_char t
  end.

(* hir/src/operation.rs *)
Definition op_file_name (name : str) : str :=
  let s := snake name in
  let s := if is_restricted s then s ++ lit "_" else s in   (* RUST_KEYWORDS = the same list *)
  match s with
  | c :: _ => if is_digit c then "_"%char :: s else s
  | [] => s
  end.
(* libninja/src/extractor/operation.rs: make_name with an operationId, then `.to_case(Pascal)` *)
Definition op_name_of_id (id : str) : str := pascal (replace_char "."%char (lit "_") id).
Definition request_struct_name (name : str) : str := name ++ lit "Request".
Definition required_struct_name (name : str) : str := name ++ lit "Required".

(* hir/src/config.rs *)
Definition client_name (svc : str) : str := svc ++ lit "Client".
Definition authenticator_name (svc : str) : str := svc ++ lit "Auth".
Definition package_name (svc : str) : str := snake svc.

(* hir/src/lib.rs *)
Definition qualified_env_var (svc var : str) : str := screaming_snake (svc ++ lit " " ++ var).
