(* OpenApi.v — the subset of OpenAPI 3.0 that libninja reads, and the openapiv3-extended helpers it calls.
   Sources: openapiv3-extended-6.0.0 schema.rs (get_properties, properties_iter, get_required), reference.rs (resolve,
   SchemaReference::from_str), openapi.rs/paths.rs (operations(): paths in document order x fixed verb order). *)
From LN Require Export Model.Chars.

Inductive schema :=
| Sch (nullable : bool) (descr : option str) (null_as_zero xformat_date : bool) (k : kind)
with kind :=
| KStr (format : str) (enum : list str)
| KInteger | KNumber | KBoolean
| KObject (props : list (str * sref)) (required : list str) (addl : option addl)
| KArray (items : option sref)
| KAllOf (l : list sref) | KOneOf (l : list sref) | KAnyOf (l : list sref) | KNot | KAny
with sref := Ref (target : str) | Inl (s : schema)
with addl := AddlAny (b : bool) | AddlSchema (s : sref).

Definition s_nullable (s : schema) := let '(Sch n _ _ _ _) := s in n.
Definition s_descr (s : schema) := let '(Sch _ d _ _ _) := s in d.
Definition s_naz (s : schema) := let '(Sch _ _ z _ _) := s in z.
Definition s_xdate (s : schema) := let '(Sch _ _ _ x _) := s in x.
Definition s_kind (s : schema) := let '(Sch _ _ _ _ k) := s in k.

Inductive ploc := PPath | PQuery | PHeader | PCookie.
Record param := { pa_name : str; pa_loc : ploc; pa_required : bool; pa_schema : sref }.

Record operation := {
  op_method : str; op_id : option str; op_summary : option str; op_description : option str;
  op_ext_docs : option str; op_params : list param; op_body : option sref;
  op_responses : list (N * option sref)   (* status code, JSON schema of its application/json content *)
}.

Record path_item := { pi_path : str; pi_params : list param; pi_ops : list operation }.

Inductive scheme :=
| SApiKey (loc : ploc) (name : str)
| SHttpBearer | SHttpBasic
| SOAuth2 (auth_url token_url : str) (refresh_url : option str) (scopes : list (str * str)).

Record spec := {
  components : list (str * schema);          (* document order (IndexMap) *)
  paths : list path_item;
  servers : list (str * option str);         (* url, description *)
  security : list (list str);                (* each requirement: scheme names in document order *)
  schemes : list (str * scheme);
  ext_docs : option str
}.

Fixpoint assoc {A} (l : list (str * A)) (k : str) : option A :=
  match l with [] => None | (q, v) :: l' => if str_eqb q k then Some v else assoc l' k end.

(* RefOr<Schema>::resolve — a missing target panics ("Schema .. not found") *)
Definition resolve (sp : spec) (r : sref) : result schema :=
  match r with
  | Inl s => Ok s
  | Ref n => match assoc (components sp) n with Some s => Ok s | None => Err EUnresolved end
  end.

Definition get_properties (s : schema) : option (list (str * sref)) :=
  match s_kind s with
  | KObject props _ _ => Some props
  | KAny => Some []
  | _ => None
  end.

Definition get_required (s : schema) : option (list str) :=
  match s_kind s with
  | KObject _ req _ => Some req
  | KAny => Some []
  | _ => None
  end.

(* operations(): document order of paths, then get, put, post, delete, options, head, patch, trace *)
Definition verb_order : list str := map lit ["get"; "put"; "post"; "delete"; "options"; "head"; "patch"; "trace"]%string.

Definition ops_of_item (pi : path_item) : list operation :=
  flat_map (fun v => match find (fun o => str_eqb (op_method o) v) (pi_ops pi) with Some o => [o] | None => [] end) verb_order.

Definition all_operations (sp : spec) : list (path_item * operation) :=
  flat_map (fun pi => map (fun o => (pi, o)) (ops_of_item pi)) (paths sp).

