(* Adapters.v — the three serde adapter modules shipped into generated crates, over Z with explicit casts.
   Sources: codegen_rust/src/serde/{option_i64_str,option_i64_null_as_zero,option_chrono_naive_date_as_int}.rs.
   Wire values are what serde_json hands to the visitor the adapter installs. *)
From LN Require Export Model.Chars.
From Coq Require Import ZArith.
Open Scope Z_scope.

Definition I64_MIN : Z := - 2 ^ 63.
Definition I64_MAX : Z := 2 ^ 63 - 1.
Definition U64_MAX : Z := 2 ^ 64 - 1.
Definition is_i64 (z : Z) : bool := (I64_MIN <=? z) && (z <=? I64_MAX).

(* `as i64` / `as i32` on an integer: two's-complement truncation *)
Definition wrap (bits : Z) (z : Z) : Z :=
  let m := 2 ^ bits in
  let r := z mod m in
  if r <? 2 ^ (bits - 1) then r else r - m.
Definition wrap64 := wrap 64.
Definition wrap32 := wrap 32.

Inductive wire :=
| WNull
| WBool (b : bool)
| WInt (z : Z)          (* an integer literal in [i64::MIN, u64::MAX]: serde_json keeps it exact *)
| WFloat                (* any other number (fraction, exponent, or beyond u64/i64): seen as f64 *)
| WStr (s : str)
| WOther.               (* arrays, objects *)

Inductive dres (A : Type) := DOk (a : A) | DErr.
Arguments DOk {A} a.
Arguments DErr {A}.

(* ---------- decimal printing and parsing of integers (i64::to_string, str::parse::<i64>) ---------- *)
Definition digit_char (d : Z) : ascii := ascii_of_N (Z.to_N (48 + d)).
Definition char_digit (c : ascii) : option Z :=
  if is_digit c then Some (Z.of_N (code c) - 48) else None.

Fixpoint digs (fuel : nat) (n : Z) : list Z :=
  match fuel with
  | O => []
  | S f => if n <? 10 then [n] else digs f (n / 10) ++ [n mod 10]
  end.

Definition print_nat (n : Z) : str := map digit_char (digs 20 n).
Definition print_int (z : Z) : str :=
  if z <? 0 then "-"%char :: print_nat (- z) else print_nat z.

Fixpoint parse_digits (s : str) (acc : Z) : option Z :=
  match s with
  | [] => Some acc
  | c :: t => match char_digit c with Some d => parse_digits t (acc * 10 + d) | None => None end
  end.

(* core::num: optional '+' or '-', at least one digit, no other characters, must fit i64 *)
Definition parse_i64 (s : str) : option Z :=
  let body (neg : bool) (t : str) :=
    match t with
    | [] => None
    | _ => match parse_digits t 0 with
           | Some n => let z := if neg then - n else n in if is_i64 z then Some z else None
           | None => None
           end
    end in
  match s with
  | [] => None
  | c :: t => if ceqb c "-"%char then body true t
              else if ceqb c "+"%char then body false t
              else body false s
  end.

(* ---------- option_i64_str: integers carried as strings ---------- *)
Definition ser_str (v : option Z) : wire :=
  match v with Some z => WStr (print_int z) | None => WStr [] end.

Definition de_str (w : wire) : dres (option Z) :=
  match w with
  | WStr s => match s with
              | [] => DOk None
              | _ => match parse_i64 s with Some z => DOk (Some z) | None => DErr end
              end
  | WNull => DOk None                                   (* deserialize_any: visit_unit *)
  | _ => DErr
  end.

(* ---------- option_i64_null_as_zero: integers where zero stands for absent ---------- *)
Definition ser_nz (v : option Z) : wire :=
  match v with Some z => WInt z | None => WInt 0 end.

(* deserialize_any: non-negative literals arrive through visit_u64, negative ones through visit_i64, null through visit_unit *)
Definition de_nz (w : wire) : dres (option Z) :=
  match w with
  | WInt z =>
      if z =? 0 then DOk None
      else if 0 <? z then (if z <=? I64_MAX then DOk (Some z) else DErr)   (* visit_u64: i64::try_from *)
      else DOk (Some z)                                 (* visit_i64 *)
  | WNull => DOk None                                   (* visit_unit: an explicit null is an absent value *)
  | _ => DErr
  end.

(* ---------- option_chrono_naive_date_as_int: dates carried as YYYYMMDD integers ---------- *)
Definition leap (y : Z) : bool := ((y mod 4 =? 0) && negb (y mod 100 =? 0)) || (y mod 400 =? 0).
Definition days_in_month (y m : Z) : Z :=
  if (m =? 1) || (m =? 3) || (m =? 5) || (m =? 7) || (m =? 8) || (m =? 10) || (m =? 12) then 31
  else if (m =? 4) || (m =? 6) || (m =? 9) || (m =? 11) then 30
  else if m =? 2 then (if leap y then 29 else 28)
  else 0.
Definition CHRONO_MIN_YEAR : Z := -262143.
Definition CHRONO_MAX_YEAR : Z := 262142.
(* chrono::NaiveDate::from_ymd_opt, proleptic Gregorian *)
Definition valid_date (y m d : Z) : bool :=
  (CHRONO_MIN_YEAR <=? y) && (y <=? CHRONO_MAX_YEAR) && (1 <=? m) && (m <=? 12) && (1 <=? d) && (d <=? days_in_month y m).

Definition date := (Z * Z * Z)%type.

Definition ser_date (v : option date) : wire :=
  match v with
  | Some (y, m, d) => WInt (wrap32 (wrap32 (wrap32 (y * 10000) + wrap32 (m * 100)) + d))   (* i32 arithmetic, then `as i64` *)
  | None => WInt 0
  end.

(* deserialize_any: only non-negative literals reach visit_u64; null reaches visit_unit *)
Definition de_date (w : wire) : dres (option date) :=
  match w with
  | WInt z =>
      if z <? 0 then DErr
      else if z =? 0 then DOk None
      else
        let d := z mod 100 in
        let m := (z / 100) mod 100 in
        let y := z / 10000 in
        DOk (if (y <=? 2 ^ 31 - 1) && valid_date y m d then Some (y, m, d) else None)   (* i32::try_from(year).ok().and_then(from_ymd_opt) *)
  | WNull => DOk None                                   (* visit_unit *)
  | _ => DErr
  end.
