(* Utf8.v — `String::from_utf8` acceptance (what fs::read_to_string checks), as a byte-at-a-time automaton.
   Well-formed byte sequences of Unicode Table 3-7; overlong forms, surrogates and > U+10FFFF are rejected. *)
From LN Require Export Model.Chars.

Inductive ust :=
| UB                              (* at a character boundary *)
| UN (k : nat) (lo hi : N).       (* one continuation byte in [lo,hi] is due, then k more in [128,191] *)

Definition lead (b : ascii) : option ust :=
  let n := code b in
  if n <=? 127 then Some UB
  else if (194 <=? n) && (n <=? 223) then Some (UN 0 128 191)
  else if n =? 224 then Some (UN 1 160 191)
  else if ((225 <=? n) && (n <=? 236)) || ((238 <=? n) && (n <=? 239)) then Some (UN 1 128 191)
  else if n =? 237 then Some (UN 1 128 159)
  else if n =? 240 then Some (UN 2 144 191)
  else if (241 <=? n) && (n <=? 243) then Some (UN 2 128 191)
  else if n =? 244 then Some (UN 2 128 143)
  else None.

Definition in_range (lo hi : N) (b : ascii) : bool :=
  (lo <=? code b) && (code b <=? hi) && (128 <=? code b).

Fixpoint urun (st : ust) (s : str) : bool :=
  match s with
  | [] => match st with UB => true | UN _ _ _ => false end
  | b :: r =>
    match st with
    | UB => match lead b with Some st' => urun st' r | None => false end
    | UN k lo hi =>
        if in_range lo hi b
        then urun (match k with O => UB | S k' => UN k' 128 191 end) r
        else false
    end
  end.

Definition utf8_valid (s : str) : bool := urun UB s.

(* read_to_string(..).unwrap_or_default(): invalid UTF-8 reads as the empty string *)
Definition decode (c : str) : str := if utf8_valid c then c else [].
