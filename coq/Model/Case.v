(* Case.v — convert_case 0.6.0 with its default boundaries, on ASCII.
   Source: convert_case-0.6.0/src/segmentation.rs (split), pattern.rs (WordCase), case.rs (delims). *)
From LN Require Export Model.Chars.

Definition is_delim (c : ascii) : bool :=
  ceqb c "_"%char || ceqb c "-"%char || ceqb c " "%char.

(* Boundary::defaults(): LowerUpper, UpperDigit, DigitUpper, DigitLower, LowerDigit (UpperLower is NOT a default) *)
Definition two (p c : ascii) : bool :=
  (is_lower p && is_upper c) || (is_upper p && is_digit c) || (is_digit p && is_upper c)
  || (is_digit p && is_lower c) || (is_lower p && is_digit c).

(* Acronym: upper upper lower, split before the second upper *)
Definition three (p c x : ascii) : bool := is_upper p && is_upper c && is_lower x.

Definition boundary (prev : option ascii) (c : ascii) (next : option ascii) : bool :=
  match prev with
  | None => false
  | Some p => two p c || match next with Some x => three p c x | None => false end
  end.

(* (rest of the current word, following words) *)
Fixpoint split_go (prev : option ascii) (s : str) : str * list str :=
  match s with
  | [] => ([], [])
  | c :: t =>
    let '(w, ws) := split_go (Some c) t in
    if is_delim c then ([], w :: ws)
    else if boundary prev c (hd_opt t) then ([], (c :: w) :: ws)
    else (c :: w, ws)
  end.

Definition nonempty (s : str) : bool := match s with [] => false | _ => true end.

Definition split_words (s : str) : list str :=
  let '(w, ws) := split_go None s in filter nonempty (w :: ws).

Definition capital (w : str) : str :=
  match w with [] => [] | c :: t => to_upper c :: lower_s t end.

Definition snake (s : str) : str := join (lit "_") (map lower_s (split_words s)).
Definition screaming_snake (s : str) : str := join (lit "_") (map upper_s (split_words s)).
Definition pascal (s : str) : str := concat (map capital (split_words s)).
Definition lower_case (s : str) : str := join (lit " ") (map lower_s (split_words s)).
Definition flat (s : str) : str := concat (map lower_s (split_words s)).
