(* Shake.v — treeshake: nullable-alias short-circuit, then remove_unused twice.
   Source: libninja/src/extractor/mod.rs:112-182. The hash containers are only probed for membership,
   so they are modelled by an abstract set implementation [SetImpl] (C09: the result does not depend on it). *)
From LN Require Export Model.Extractor.

Record SetImpl := {
  set_t : Type;
  set_empty : set_t;
  set_add : str -> set_t -> set_t;
  set_mem : str -> set_t -> bool
}.

Definition ListSet : SetImpl :=
  {| set_t := list str; set_empty := []; set_add := fun x s => x :: s; set_mem := fun x s => mem_str x s |}.

Section Shake.
Variable I : SetImpl.

Definition add_opt (o : option str) (s : set_t I) : set_t I :=
  match o with Some n => set_add I n s | None => s end.

Definition used_set (h : hirspec) : set_t I :=
  let s1 := fold_left (fun s kr => fold_left (fun s f => add_opt (inner_model (f_ty f)) s) (record_fields (snd kr)) s)
                      (h_schemas h) (set_empty I) in
  fold_left (fun s o =>
     let s := add_opt (inner_model (o_ret o)) s in
     fold_left (fun s p => add_opt (inner_model (p_ty p)) s) (o_params o) s) (h_ops h) s1.

Definition remove_unused (h : hirspec) : hirspec :=
  let used := used_set h in
  {| h_ops := h_ops h;
     h_schemas := filter (fun kr => set_mem I (fst kr) used || ends_with (lit "Webhook") (fst kr)) (h_schemas h);
     h_servers := h_servers h; h_security := h_security h; h_docs_url := h_docs_url h |}.
End Shake.

(* optional type aliases whose target is a model: alias name -> target *)
Definition short_circuit_map (h : hirspec) : list (str * str) :=
  flat_map (fun kr =>
    match snd kr with
    | RAlias alias f => if f_optional f then match f_ty f with TModel r => [(alias, r)] | _ => [] end else []
    | _ => []
    end) (h_schemas h).

Definition rewrite_field (m : list (str * str)) (f : hfield) : result hfield :=
  match f_ty f with
  | TModel n =>
      match assoc m n with
      | Some target => do t <- ty_model target; Ok {| f_ty := t; f_optional := true; f_doc := f_doc f; f_flatten := f_flatten f |}
      | None => Ok f
      end
  | _ => Ok f
  end.

Definition rewrite_record (m : list (str * str)) (r : record) : result record :=
  match r with
  | RStruct n nl fs d => do fs' <- mapM (fun kf => do f <- rewrite_field m (snd kf); Ok (fst kf, f)) fs; Ok (RStruct n nl fs' d)
  | RNewType n fs d => do fs' <- mapM (rewrite_field m) fs; Ok (RNewType n fs' d)
  | RAlias n f => do f' <- rewrite_field m f; Ok (RAlias n f')
  | REnum n v d => Ok (REnum n v d)
  end.

Definition treeshake (I : SetImpl) (h : hirspec) : result hirspec :=
  let m := short_circuit_map h in
  do schemas <- mapM (fun kr => do r <- rewrite_record m (snd kr); Ok (fst kr, r)) (h_schemas h);
  let h1 := {| h_ops := h_ops h; h_schemas := schemas; h_servers := h_servers h;
               h_security := h_security h; h_docs_url := h_docs_url h |} in
  Ok (remove_unused I (remove_unused I h1)).

Definition extract_spec (fuel : nat) (sp : spec) : result hirspec :=
  do h <- extract_without_treeshake fuel sp;
  treeshake ListSet h.
