(* RustTy.v — mir_rust/src/ty.rs: the Rust type syntax emitted for a Ty.
   [rty] is an abstract syntax of the token streams the quote! templates produce. *)
From LN Require Export Model.Hir.

Inductive rty :=
| RString | RI64 | RF64 | RBool | RUnit
| RVec (t : rty)
| RHashMap (t : rty)                 (* std::collections::HashMap<String, t> *)
| RNamed (ident : str)               (* a generated model type *)
| RValue                             (* serde_json::Value *)
| RNaiveDate | RDateTimeUtc | RDecimal
| RRefStr                            (* &'a str  (lifetime specifier supplied by the caller) *)
| RRefSlice (t : rty)                (* &'a [t] *)
| ROption (t : rty).

Fixpoint to_rust_type (t : ty) : result rty :=
  match t with
  | TString => Ok RString
  | TInteger _ => Ok RI64
  | TFloat => Ok RF64
  | TBoolean => Ok RBool
  | TArray i => do r <- to_rust_type i; Ok (RVec r)
  | TModel n => do s <- sanitize_struct n; Ok (RNamed s)
  | TUnit => Ok RUnit
  | TAny => Ok RValue
  | TDate _ => Ok RNaiveDate
  | TDateTime => Ok RDateTimeUtc
  | TCurrency => Ok RDecimal
  | THashMap i => do r <- to_rust_type i; Ok (RHashMap r)
  end.

Fixpoint is_reference_type (t : ty) : bool :=
  match t with
  | TString => true
  | TArray i => is_reference_type i
  | _ => false
  end.

Fixpoint to_reference_type (t : ty) : result rty :=
  match t with
  | TString => Ok RRefStr
  | TArray i =>
      if is_reference_type i then do r <- to_reference_type i; Ok (RRefSlice r)
      else to_rust_type t
  | _ => to_rust_type t
  end.
