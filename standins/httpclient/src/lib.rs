//! API-shaped, RECORDING stand-in for kurtbuilds/httpclient (the real crate is not available offline).
//! Written from the calls libninja's templates make. Every request that is awaited is appended to RECORDED and
//! printed as one `REQUEST <json>` line; the response body is JSON `null`.
use serde::de::DeserializeOwned;
use serde::Serialize;
use std::future::{Future, IntoFuture};
use std::pin::Pin;
use std::sync::{Arc, Mutex};

pub static RECORDED: Mutex<Vec<serde_json::Value>> = Mutex::new(Vec::new());

#[derive(Debug)]
pub struct InMemoryError(pub String);
impl std::fmt::Display for InMemoryError {
    fn fmt(&self, f: &mut std::fmt::Formatter<'_>) -> std::fmt::Result {
        write!(f, "{}", self.0)
    }
}
impl std::error::Error for InMemoryError {}
impl From<serde_json::Error> for InMemoryError {
    fn from(e: serde_json::Error) -> Self {
        InMemoryError(e.to_string())
    }
}
pub type InMemoryResult<T> = Result<T, InMemoryError>;

pub trait Middleware: Send + Sync + std::fmt::Debug {
    fn name(&self) -> String;
}

#[derive(Clone, Debug, Default)]
pub struct Client {
    pub base_url: String,
}

impl Client {
    pub fn new() -> Self {
        Client::default()
    }
    pub fn base_url(mut self, url: &str) -> Self {
        self.base_url = url.to_string();
        self
    }
    fn req<'a>(&'a self, method: &str, url: &str) -> RequestBuilder<'a> {
        RequestBuilder {
            client: self,
            method: method.to_string(),
            url: url.to_string(),
            query: vec![],
            headers: vec![],
            cookies: vec![],
            body: None,
            bearer: None,
            basic: None,
            token: None,
            middlewares: vec![],
        }
    }
    pub fn get<'a>(&'a self, url: &str) -> RequestBuilder<'a> { self.req("get", url) }
    pub fn post<'a>(&'a self, url: &str) -> RequestBuilder<'a> { self.req("post", url) }
    pub fn put<'a>(&'a self, url: &str) -> RequestBuilder<'a> { self.req("put", url) }
    pub fn delete<'a>(&'a self, url: &str) -> RequestBuilder<'a> { self.req("delete", url) }
    pub fn patch<'a>(&'a self, url: &str) -> RequestBuilder<'a> { self.req("patch", url) }
    pub fn head<'a>(&'a self, url: &str) -> RequestBuilder<'a> { self.req("head", url) }
    pub fn options<'a>(&'a self, url: &str) -> RequestBuilder<'a> { self.req("options", url) }
    pub fn trace<'a>(&'a self, url: &str) -> RequestBuilder<'a> { self.req("trace", url) }
}

pub struct RequestBuilder<'a> {
    pub client: &'a Client,
    pub method: String,
    pub url: String,
    pub query: Vec<(String, String)>,
    pub headers: Vec<(String, String)>,
    pub cookies: Vec<(String, String)>,
    pub body: Option<serde_json::Value>,
    pub bearer: Option<String>,
    pub basic: Option<String>,
    pub token: Option<String>,
    pub middlewares: Vec<Arc<dyn Middleware>>,
}

fn flatten_query(prefix: &str, v: &serde_json::Value, out: &mut Vec<(String, String)>) {
    match v {
        serde_json::Value::Null => {}
        serde_json::Value::Array(a) => {
            for (i, x) in a.iter().enumerate() {
                flatten_query(&format!("{}[{}]", prefix, i), x, out);
            }
        }
        serde_json::Value::Object(m) => {
            for (k, x) in m {
                flatten_query(&format!("{}[{}]", prefix, k), x, out);
            }
        }
        serde_json::Value::String(s) => out.push((prefix.to_string(), s.clone())),
        other => out.push((prefix.to_string(), other.to_string())),
    }
}

impl<'a> RequestBuilder<'a> {
    pub fn query(mut self, k: &str, v: &str) -> Self {
        self.query.push((k.to_string(), v.to_string()));
        self
    }
    pub fn header(mut self, k: &str, v: &str) -> Self {
        self.headers.push((k.to_string(), v.to_string()));
        self
    }
    pub fn cookie(mut self, k: &str, v: &str) -> Self {
        self.cookies.push((k.to_string(), v.to_string()));
        self
    }
    /// object bodies are merged member-wise (later wins)
    pub fn json<S: Serialize>(mut self, v: S) -> Self {
        let v = serde_json::to_value(v).unwrap();
        match (&mut self.body, v) {
            (Some(serde_json::Value::Object(a)), serde_json::Value::Object(b)) => {
                for (k, x) in b {
                    a.insert(k, x);
                }
            }
            (slot, v) => *slot = Some(v),
        }
        self
    }
    /// replaces the query by the serialised struct: one pair per present field, under the field's name
    pub fn set_query<S: Serialize>(mut self, s: S) -> Self {
        let v = serde_json::to_value(s).unwrap();
        let mut out = vec![];
        if let serde_json::Value::Object(m) = v {
            for (k, x) in &m {
                flatten_query(k, x, &mut out);
            }
        }
        self.query = out;
        self
    }
    pub fn bearer_auth(mut self, t: &str) -> Self {
        self.bearer = Some(t.to_string());
        self
    }
    pub fn basic_auth(mut self, t: &str) -> Self {
        self.basic = Some(t.to_string());
        self
    }
    pub fn token_auth(mut self, t: &str) -> Self {
        self.token = Some(t.to_string());
        self
    }
}

pub struct InMemoryResponse {
    pub body: String,
}

pub trait InMemoryResponseExt {
    fn json<T: DeserializeOwned>(self) -> Result<T, serde_json::Error>;
}
impl InMemoryResponseExt for InMemoryResponse {
    fn json<T: DeserializeOwned>(self) -> Result<T, serde_json::Error> {
        serde_json::from_str(&self.body)
    }
}

impl<'a> IntoFuture for RequestBuilder<'a> {
    type Output = InMemoryResult<InMemoryResponse>;
    type IntoFuture = Pin<Box<dyn Future<Output = Self::Output> + Send + 'a>>;
    fn into_future(self) -> Self::IntoFuture {
        let rec = serde_json::json!({
            "method": self.method, "base_url": self.client.base_url, "url": self.url,
            "query": self.query, "headers": self.headers, "cookies": self.cookies, "body": self.body,
            "bearer": self.bearer, "basic": self.basic, "token": self.token,
            "middlewares": self.middlewares.iter().map(|m| m.name()).collect::<Vec<_>>(),
        });
        Box::pin(async move {
            println!("REQUEST {}", rec);
            RECORDED.lock().unwrap().push(rec);
            Ok(InMemoryResponse { body: "null".to_string() })
        })
    }
}
