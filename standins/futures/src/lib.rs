//! stand-in for futures: only future::BoxFuture is used by generated code
pub mod future {
    pub type BoxFuture<'a, T> = std::pin::Pin<Box<dyn std::future::Future<Output = T> + Send + 'a>>;
}
