//! stand-in for base64 0.21: Engine + engine::general_purpose::STANDARD_NO_PAD
pub trait Engine {
    fn encode<T: AsRef<[u8]>>(&self, input: T) -> String;
}
pub mod engine {
    pub mod general_purpose {
        pub struct NoPad;
        pub const STANDARD_NO_PAD: NoPad = NoPad;
        impl crate::Engine for NoPad {
            fn encode<T: AsRef<[u8]>>(&self, input: T) -> String {
                const A: &[u8] = b"ABCDEFGHIJKLMNOPQRSTUVWXYZabcdefghijklmnopqrstuvwxyz0123456789+/";
                let b = input.as_ref();
                let mut out = String::new();
                for ch in b.chunks(3) {
                    let n = (ch[0] as u32) << 16 | (*ch.get(1).unwrap_or(&0) as u32) << 8 | *ch.get(2).unwrap_or(&0) as u32;
                    out.push(A[(n >> 18) as usize & 63] as char);
                    out.push(A[(n >> 12) as usize & 63] as char);
                    if ch.len() > 1 { out.push(A[(n >> 6) as usize & 63] as char); }
                    if ch.len() > 2 { out.push(A[n as usize & 63] as char); }
                }
                out
            }
        }
    }
}
