//! stand-in for rust_decimal: a decimal kept as its text
#[derive(Debug, Clone, Default, PartialEq, Eq, Hash)]
pub struct Decimal(pub String);
impl Decimal {
    pub fn from_str_exact(s: &str) -> Result<Self, String> {
        if !s.is_empty() && s.chars().all(|c| c.is_ascii_digit() || c == '.' || c == '-') { Ok(Decimal(s.to_string())) } else { Err(format!("not a decimal: {}", s)) }
    }
}
impl std::fmt::Display for Decimal {
    fn fmt(&self, f: &mut std::fmt::Formatter<'_>) -> std::fmt::Result { write!(f, "{}", self.0) }
}
impl ::serde::Serialize for Decimal {
    fn serialize<S: ::serde::Serializer>(&self, s: S) -> Result<S::Ok, S::Error> { s.serialize_str(&self.0) }
}
impl<'de> ::serde::Deserialize<'de> for Decimal {
    fn deserialize<D: ::serde::Deserializer<'de>>(d: D) -> Result<Self, D::Error> {
        let s = <String as ::serde::Deserialize>::deserialize(d)?;
        Decimal::from_str_exact(&s).map_err(::serde::de::Error::custom)
    }
}
pub mod serde {
    pub mod str {
        use crate::Decimal;
        pub fn serialize<S: ::serde::Serializer>(v: &Decimal, s: S) -> Result<S::Ok, S::Error> { s.serialize_str(&v.0) }
        pub fn deserialize<'de, D: ::serde::Deserializer<'de>>(d: D) -> Result<Decimal, D::Error> { <Decimal as ::serde::Deserialize>::deserialize(d) }
    }
    pub mod str_option {
        use crate::Decimal;
        pub fn serialize<S: ::serde::Serializer>(v: &Option<Decimal>, s: S) -> Result<S::Ok, S::Error> {
            match v { Some(d) => s.serialize_str(&d.0), None => s.serialize_none() }
        }
        pub fn deserialize<'de, D: ::serde::Deserializer<'de>>(d: D) -> Result<Option<Decimal>, D::Error> {
            <Option<Decimal> as ::serde::Deserialize>::deserialize(d)
        }
    }
}
