//! stand-in for rust_decimal_macros::dec!
pub use rust_decimal;
#[macro_export]
macro_rules! dec {
    ($e:expr) => {
        $crate::rust_decimal::Decimal::from_str_exact(stringify!($e)).unwrap()
    };
}
