//! stand-in for httpclient_oauth2
#[derive(Debug, Clone)]
pub struct OAuth2Flow {
    pub client_id: String,
    pub client_secret: String,
    pub init_endpoint: String,
    pub exchange_endpoint: String,
    pub refresh_endpoint: String,
    pub redirect_uri: String,
}
#[derive(Debug, Clone)]
pub struct OAuth2 {
    pub access: String,
    pub refresh: String,
}
impl OAuth2Flow {
    pub fn bearer_middleware(&self, access: String, refresh: String) -> OAuth2 {
        OAuth2 { access, refresh }
    }
}
impl httpclient::Middleware for OAuth2 {
    fn name(&self) -> String {
        format!("oauth2:{}", self.access)
    }
}
